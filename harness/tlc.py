"""TLC bridge (DESIGN §6): exhaustive / simulation runs, PrintT harvesting, batch trace validation."""

from __future__ import annotations

import json
import os
import re
import shutil
import subprocess
import tempfile
import time
from concurrent.futures import ThreadPoolExecutor

SPEC_DIR = os.path.join(os.path.dirname(os.path.dirname(os.path.abspath(__file__))), "spec")
JAR = "/opt/veriftools/tla/tla2tools.jar"
DEPS = "/opt/veriftools/tla/CommunityModules-deps.jar"


class TLCError(Exception):
    """Machinery failure (exit 2 material)."""


# ----------------------------------------------------------------------------- TLA+ value parser


class _P:
    def __init__(self, s):
        self.s = s
        self.i = 0

    def ws(self):
        while self.i < len(self.s) and self.s[self.i] in " \t\r\n":
            self.i += 1

    def peek(self, k=1):
        return self.s[self.i : self.i + k]

    def expect(self, tok):
        self.ws()
        if not self.s.startswith(tok, self.i):
            raise ValueError(f"expected {tok!r} at {self.i}: {self.s[self.i:self.i+30]!r}")
        self.i += len(tok)

    def value(self):
        self.ws()
        c = self.peek()
        if self.peek(2) == "<<":
            self.i += 2
            out = []
            self.ws()
            if self.peek(2) == ">>":
                self.i += 2
                return tuple(out)
            while True:
                out.append(self.value())
                self.ws()
                if self.peek(2) == ">>":
                    self.i += 2
                    return tuple(out)
                self.expect(",")
        if c == "{":
            self.i += 1
            out = []
            self.ws()
            if self.peek() == "}":
                self.i += 1
                return frozenset()
            while True:
                out.append(self.value())
                self.ws()
                if self.peek() == "}":
                    self.i += 1
                    try:
                        return frozenset(out)
                    except TypeError:
                        return tuple(out)
                self.expect(",")
        if c == "[":
            self.i += 1
            d = {}
            self.ws()
            while True:
                k = self.ident()
                self.ws()
                self.expect("|->")
                d[k] = self.value()
                self.ws()
                if self.peek() == "]":
                    self.i += 1
                    return d
                self.expect(",")
        if c == "(":
            # function  (k :> v @@ k :> v)
            self.i += 1
            d = {}
            while True:
                k = self.value()
                self.expect(":>")
                d[k] = self.value()
                self.ws()
                if self.peek() == ")":
                    self.i += 1
                    return d
                self.expect("@@")
        if c == '"':
            j = self.i + 1
            buf = []
            while self.s[j] != '"':
                if self.s[j] == "\\":
                    j += 1
                buf.append(self.s[j])
                j += 1
            self.i = j + 1
            return "".join(buf)
        m = re.compile(r"-?\d+").match(self.s, self.i)
        if m:
            self.i = m.end()
            return int(m.group())
        k = self.ident()
        if k == "TRUE":
            return True
        if k == "FALSE":
            return False
        return k  # model value

    def ident(self):
        self.ws()
        m = re.compile(r"[A-Za-z_][A-Za-z0-9_]*").match(self.s, self.i)
        if not m:
            raise ValueError(f"identifier expected at {self.i}: {self.s[self.i:self.i+30]!r}")
        self.i = m.end()
        return m.group()


def parse_value(s):
    p = _P(s)
    v = p.value()
    return v


def find_tagged(output, tag):
    """All PrintT'ed tuples whose first element is the string `tag` (bracket matching; TLC pretty-prints long
    values over several lines and may put a space after `<<`)."""
    out = []
    pat = re.compile(r'<<\s*"' + re.escape(tag) + '"')
    i = 0
    while True:
        m = pat.search(output, i)
        if not m:
            return out
        p = _P(output)
        p.i = m.start()
        try:
            out.append(p.value())
            i = p.i
        except (ValueError, IndexError):
            i = m.start() + 2


# ----------------------------------------------------------------------------- running TLC


class TLCResult:
    def __init__(self):
        self.returncode = None
        self.output = ""
        self.generated = 0
        self.distinct = 0
        self.depth = 0
        self.violated = []
        self.errors = []
        self.coverage = {}
        self.wall = 0.0
        self.cmd = ""

    @property
    def ok(self):
        return not self.violated and not self.errors and self.returncode == 0

    def summary(self):
        return {
            "generated": self.generated,
            "distinct": self.distinct,
            "depth": self.depth,
            "violated": self.violated,
            "errors": self.errors[:3],
            "wall_s": round(self.wall, 2),
        }


_RE_STATES = re.compile(r"(\d+) states generated, (\d+) distinct states found")
_RE_DEPTH = re.compile(r"The depth of the complete state graph search is (\d+)")
_RE_INV = re.compile(r"Error: Invariant (\S+) is violated")
_RE_ACT = re.compile(r"Error: Action property (\S+) is violated")
_RE_COV = re.compile(r"^<(\w+) line (\d+), col (\d+) to line (\d+), col (\d+) of module (\w+)>: (\d+):(\d+)", re.M)


def scratch_dir():
    base = os.environ.get("TMPDIR", "/tmp")
    return tempfile.mkdtemp(prefix="verif-tlc-", dir=base)


def run_tlc(module, cfg, *, workers="auto", spec_dir=SPEC_DIR, env=None, timeout=3600, coverage=False,
            simulate=None, depth=None, seed=None, deadlock=True, jvm=(), extra=(), heap="4g", dump=None,
            keep_dir=None):
    """Run TLC on spec_dir/module.tla with spec_dir/cfg.  Returns TLCResult (never raises for violations)."""
    meta = keep_dir or scratch_dir()
    # java.io.tmpdir: TLC leaves an empty tlc-<n> directory behind per run; keep it inside the scratch directory
    cmd = ["java", "-XX:+UseParallelGC", f"-Xmx{heap}", f"-Djava.io.tmpdir={meta}", *jvm, "-cp", f"{JAR}:{DEPS}", "tlc2.TLC",
           "-metadir", os.path.join(meta, "states"), "-noGenerateSpecTE", "-workers", str(workers),
           "-config", cfg]
    if coverage:
        cmd += ["-coverage", "1"]
    if not deadlock:
        cmd += ["-deadlock"]
    if simulate is not None:
        cmd += ["-simulate", simulate]
    if depth is not None:
        cmd += ["-depth", str(depth)]
    if seed is not None:
        cmd += ["-seed", str(seed)]
    if dump is not None:
        cmd += ["-dump", "dot,actionlabels", dump]
    cmd += list(extra)
    cmd += [module if module.endswith(".tla") else module + ".tla"]
    e = dict(os.environ)
    e.pop("JAVA_TOOL_OPTIONS", None)
    if env:
        e.update({k: str(v) for k, v in env.items()})
    r = TLCResult()
    r.cmd = " ".join(cmd)
    t0 = time.time()
    try:
        p = subprocess.run(cmd, cwd=spec_dir, env=e, capture_output=True, text=True, timeout=timeout)
        r.returncode = p.returncode
        r.output = p.stdout + p.stderr
    except subprocess.TimeoutExpired as ex:
        r.returncode = -1
        r.output = (ex.stdout or b"").decode("utf8", "replace") if isinstance(ex.stdout, bytes) else (ex.stdout or "")
        r.errors.append(f"timeout after {timeout}s")
    finally:
        if keep_dir is None:
            shutil.rmtree(meta, ignore_errors=True)
    r.wall = time.time() - t0
    out = r.output
    ms = _RE_STATES.findall(out)
    if ms:
        r.generated, r.distinct = int(ms[-1][0]), int(ms[-1][1])
    m = _RE_DEPTH.search(out)
    if m:
        r.depth = int(m.group(1))
    r.violated = _RE_INV.findall(out) + _RE_ACT.findall(out)
    if "Error: Deadlock reached" in out:
        r.violated.append("Deadlock")
    if "Temporal properties were violated" in out:
        r.violated.append("Temporal")
    for line in out.splitlines():
        if line.startswith("Error:") and "is violated" not in line and "Deadlock reached" not in line \
                and "Temporal properties" not in line and "behavior up to this point" not in line:
            r.errors.append(line.strip())
    if r.returncode not in (0, 12, 13, 11, 10) and not r.errors and not r.violated:
        r.errors.append(f"tlc exit code {r.returncode}: {out[-400:]}")
    if coverage:
        for m in _RE_COV.finditer(out):
            r.coverage[m.group(1)] = r.coverage.get(m.group(1), 0) + int(m.group(7))
    return r


def require_ok(r: TLCResult, what=""):
    if not r.ok:
        raise TLCError(f"TLC failed {what}: violated={r.violated} errors={r.errors[:3]}\n{r.output[-1500:]}")
    return r


# ----------------------------------------------------------------------------- batch trace validation


def validate_traces(module, cfg, traces, *, chunk=400, parallel=16, env=None, timeout=1800, dfs_queue=True,
                    heap="2g"):
    """Validate traces (each a list of JSON-able event records) against a batch trace spec.

    The trace module reads `JsonDeserialize(IOEnv.TRACES)` (a sequence of traces), chooses tid in Init,
    and prints, from its POSTCONDITION,  <<"TRACE", i, accepted, furthest>>  per trace, and from its
    constraint  <<"VIOL", i, clause, line>>  for every monitor clause found FALSE.

    Returns (verdicts, stats): verdicts[k] = {"accepted": bool, "furthest": int, "viol": sorted clause list}.
    """
    n = len(traces)
    verdicts = [None] * n
    jobs = []
    for a in range(0, n, chunk):
        jobs.append((a, traces[a : a + chunk]))
    stats = {"generated": 0, "distinct": 0, "jvms": len(jobs), "wall_s": 0.0}
    tmp = scratch_dir()

    def one(job):
        a, trs = job
        path = os.path.join(tmp, f"traces_{a}.json")
        with open(path, "w") as f:
            json.dump(trs, f)
        e = {"TRACES": path}
        if env:
            e.update(env)
        jvm = ["-Dtlc2.tool.queue.IStateQueue=StateDeque"] if dfs_queue else []
        r = run_tlc(module, cfg, workers=1, env=e, timeout=timeout, jvm=jvm, deadlock=False, heap=heap)
        return a, trs, r

    t0 = time.time()
    try:
        with ThreadPoolExecutor(max_workers=parallel) as ex:
            results = list(ex.map(one, jobs))
    finally:
        shutil.rmtree(tmp, ignore_errors=True)
    stats["wall_s"] = round(time.time() - t0, 2)
    for a, trs, r in results:
        if r.errors or r.returncode not in (0,):
            raise TLCError(f"trace validation run failed ({module}): {r.errors[:3]} rc={r.returncode}\n{r.output[-3000:]}")
        stats["generated"] += r.generated
        stats["distinct"] += r.distinct
        seen = {}
        for v in find_tagged(r.output, "TRACE"):
            _, i, acc, far, vs = v[:5]
            seen[i] = {"accepted": bool(acc), "furthest": far, "viol": set() if acc else set(vs)}
        if len([i for i in seen if 1 <= i <= len(trs)]) != len(trs):
            raise TLCError(f"trace validation: {len(seen)} verdicts for {len(trs)} traces ({module})\n{r.output[-2000:]}")
        for i, v in seen.items():
            v["viol"] = sorted(v["viol"])
            verdicts[a + i - 1] = v
    return verdicts, stats
