"""Load watchdog from /repo/src into the controlled world (DESIGN §5.1).

`load()` imports the watchdog modules with threading/time/queue/select/subprocess replaced by
shims *only while watchdog is being imported*; everything else in the interpreter keeps the
real modules.  No file under /repo is touched.
"""

from __future__ import annotations

import importlib
import os
import sys
import types

from . import detsched

REPO_SRC = os.environ.get("WATCHDOG_SRC", "/repo/src")

_PRELOAD = [
    "logging", "dataclasses", "re", "pathlib", "ctypes", "ctypes.util", "contextlib", "collections", "functools",
    "errno", "struct", "os", "os.path", "stat", "warnings", "signal", "subprocess", "string", "unicodedata",
    "platform", "typing", "collections.abc", "select", "queue", "threading", "time", "heapq", "fnmatch", "shlex",
    "argparse", "textwrap", "io",
]

WATCHDOG_MODULES = [
    "watchdog",
    "watchdog.utils",
    "watchdog.utils.platform",
    "watchdog.utils.bricks",
    "watchdog.utils.delayed_queue",
    "watchdog.utils.patterns",
    "watchdog.utils.dirsnapshot",
    "watchdog.utils.echo",
    "watchdog.utils.event_debouncer",
    "watchdog.utils.process_watcher",
    "watchdog.events",
    "watchdog.observers.api",
    "watchdog.observers.inotify_c",
    "watchdog.observers.inotify_buffer",
    "watchdog.observers.inotify",
    "watchdog.observers.polling",
    "watchdog.tricks",
]


class World:
    """Handle on the shimmed watchdog modules."""

    def __init__(self, mods, shims):
        self.mods = mods
        self.shims = shims

    def __getitem__(self, name):
        return self.mods[name]

    def mod(self, short):
        return self.mods["watchdog." + short]


class SelectShim(types.ModuleType):
    pass


def make_select_module():
    import select as real

    m = SelectShim("select")
    for k in dir(real):
        if not k.startswith("__"):
            m.__dict__[k] = getattr(real, k)

    class poll:
        """select.poll whose blocking poll() is a scheduler yield point (enabled = real poll(0) non-empty)."""

        def __init__(self):
            self._p = real.poll()
            self._fds = []

        def register(self, fd, mask=real.POLLIN | real.POLLPRI | real.POLLOUT):
            h = m.__dict__.get("_seam")
            if h is not None:
                h.on_fd_use("poll_register", fd)
            self._fds.append(fd)
            return self._p.register(fd, mask)

        def unregister(self, fd):
            if fd in self._fds:
                self._fds.remove(fd)
            return self._p.unregister(fd)

        def modify(self, fd, mask):
            return self._p.modify(fd, mask)

        def poll(self, timeout=None):
            s = detsched.SCHED()
            h = m.__dict__.get("_seam")
            if h is not None:
                r = h.poll(self, timeout)
                if r is not NotImplemented:
                    return r
            res = []

            def ready():
                nonlocal res
                res = self._p.poll(0)
                return bool(res)

            wake = None if timeout is None or timeout < 0 else s.now + timeout / 1000.0
            s.yield_("poll", self, enabled=ready, wake=wake)
            res = self._p.poll(0)
            return res

    m.poll = poll
    m._shim = True
    m._seam = None
    return m


_world = None


def load(extra_modules=(), fresh=False) -> World:
    import logging

    logging.disable(logging.CRITICAL)  # watchdog logs expected races at ERROR level
    """Import watchdog (from REPO_SRC) against the shims.  Idempotent per process."""
    global _world
    if _world is not None and not fresh:
        return _world
    if REPO_SRC not in sys.path:
        sys.path.insert(0, REPO_SRC)
    for n in _PRELOAD:
        try:
            importlib.import_module(n)
        except ImportError:
            pass
    # purge any real-world watchdog import
    for k in [k for k in sys.modules if k == "watchdog" or k.startswith("watchdog.")]:
        del sys.modules[k]
    th = detsched.make_threading_module()
    tm = detsched.make_time_module()
    qm = detsched.make_queue_module(th, tm)
    sel = make_select_module()
    from . import fakeproc

    sp = fakeproc.make_subprocess_module()
    shims = {"threading": th, "time": tm, "queue": qm, "select": sel, "subprocess": sp}
    saved = {k: sys.modules.get(k) for k in shims}
    sys.modules.update(shims)
    mods = {}
    try:
        for n in list(WATCHDOG_MODULES) + list(extra_modules):
            mods[n] = importlib.import_module(n)
    finally:
        for k, v in saved.items():
            if v is None:
                sys.modules.pop(k, None)
            else:
                sys.modules[k] = v
    # the shimmed watchdog modules stay in sys.modules under their own names: harness code that does
    # `from watchdog.events import X` after load() gets the same (shimmed) classes.
    w = World(mods, shims)
    src = os.path.realpath(mods["watchdog"].__file__)
    if not src.startswith(os.path.realpath(REPO_SRC)):
        raise RuntimeError(f"watchdog imported from {src}, expected {REPO_SRC}")
    _world = w
    return w
