"""setup_cmd: nothing to compile (pure Python + TLA+).  Parse every specification with SANY and make sure the
controlled world loads from /repo/src."""
import glob
import os
import subprocess
import sys

V = os.path.dirname(os.path.dirname(os.path.abspath(__file__)))


def main():
    bad = 0
    for f in sorted(glob.glob(os.path.join(V, "spec", "*.tla"))):
        p = subprocess.run(["java", "-cp", "/opt/veriftools/tla/tla2tools.jar:/opt/veriftools/tla/CommunityModules-deps.jar",
                            "tla2sany.SANY", os.path.basename(f)], cwd=os.path.join(V, "spec"), capture_output=True, text=True)
        ok = p.returncode == 0 and "Semantic errors" not in p.stdout and "***Parse Error***" not in p.stdout
        print(("ok   " if ok else "FAIL ") + os.path.basename(f))
        if not ok:
            bad += 1
            print(p.stdout[-1500:])
    sys.path.insert(0, V)
    from harness import loader

    w = loader.load()
    print("watchdog loaded from", w["watchdog"].__file__)
    os.makedirs(os.path.join(V, "evidence"), exist_ok=True)
    os.makedirs(os.path.join(V, "replays"), exist_ok=True)
    # a specification that does not parse makes its own check fail (exit 2); setup itself only reports
    return 0


if __name__ == "__main__":
    sys.exit(main())
