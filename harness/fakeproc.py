"""Simulated process table behind subprocess.Popen / kill_process (DESIGN §5.3, C18).

A child is a record in `TABLE`; it exits only when the controller (the driver program or the
scheduler's data choice) says so, or when it is signalled.
"""

from __future__ import annotations

import types

from . import detsched


class ProcTable:
    def __init__(self):
        self.procs = []  # list of Popen
        self.log = []  # (kind, pid, now)
        self.die_on_signal = True  # children die when signalled with the stop signal (else only on 9)

    def reset(self):
        self.procs = []
        self.log = []
        self.die_on_signal = True

    def alive(self):
        return [p for p in self.procs if p.returncode is None]

    def record(self, kind, pid, **kw):
        s = detsched._CUR
        rec = {"k": kind, "pid": pid}
        rec.update(kw)
        self.log.append(rec)
        if s is not None:
            s.log("proc", k=kind, pid=pid, alive=sorted(p.pid for p in self.alive()), **kw)


TABLE = ProcTable()


class Popen:
    def __init__(self, args, **kw):
        s = detsched.SCHED()
        s.yield_("spawn", None)
        self.args = args
        self.pid = 100 + len(TABLE.procs)
        self.returncode = None
        TABLE.procs.append(self)
        TABLE.record("spawn", self.pid)

    def poll(self):
        s = detsched.SCHED()
        if not s.aborting:
            s.yield_("ppoll", self)
        return self.returncode

    def wait(self, timeout=None):
        s = detsched.SCHED()
        wake = None if timeout is None else s.now + timeout
        s.yield_("pwait", self, enabled=lambda: self.returncode is not None, wake=wake)
        if self.returncode is None:
            raise TimeoutExpired(self.args, timeout)
        return self.returncode

    # controller side
    def _exit(self, code=0, why="self"):
        if self.returncode is None:
            self.returncode = code
            TABLE.record("exit", self.pid, why=why)

    def kill(self):
        self._exit(-9, "kill")

    def terminate(self):
        self._exit(-15, "term")

    def __enter__(self):
        return self

    def __exit__(self, *a):
        pass


class TimeoutExpired(Exception):
    def __init__(self, cmd, timeout):
        self.cmd = cmd
        self.timeout = timeout


def find(pid):
    for p in TABLE.procs:
        if p.pid == pid:
            return p
    return None


def kill_process(pid, sig):
    """Replacement for watchdog.tricks.kill_process."""
    s = detsched.SCHED()
    s.yield_("kill", None)
    p = find(pid)
    if p is None or p.returncode is not None:
        TABLE.record("kill_gone", pid, sig=sig)
        raise ProcessLookupError(3, "No such process")
    TABLE.record("kill", pid, sig=sig)
    if sig == 9 or TABLE.die_on_signal:
        p._exit(-sig, "signal")


def make_subprocess_module():
    import subprocess as real

    m = types.ModuleType("subprocess")
    for k in dir(real):
        if not k.startswith("__"):
            m.__dict__[k] = getattr(real, k)
    m.Popen = Popen
    m.TimeoutExpired = TimeoutExpired
    m._shim = True
    return m
