"""Spec -> code replay (DESIGN §5.5): drive the real code along a TLC behaviour.

A behaviour is a list of actions; each action belongs to one task (thread).  The MacroReplay strategy
steps exactly that task, one yield point at a time, until it is parked at an *action boundary* again,
then calls `after(k, action)` so the caller can compare the projected implementation state with the
specification's successor state.
"""

from __future__ import annotations

from . import detsched


class MacroReplay(detsched.Strategy):
    def __init__(self, actions, task_of, boundary, after, max_inner=200, chooser=None, env=None, skip=None, stop_when_done=False):
        self.actions = list(actions)
        self.task_of = task_of  # action -> task name
        self.boundary = boundary  # (task, seen) -> bool : parked at an action boundary; seen = labels parked at
        # during the current action (None when asked outside an action: setup / start of an action)
        self.after = after  # (k, action, sched) -> None ; may raise ReplayMismatch
        self.chooser = chooser  # (action, n, label) -> index : data choices made while the action runs
        self.env = env  # (action, sched) -> None : executes an environment action (task_of(action) is None)
        self.skip = skip  # (k, action, sched) -> bool : the action is a stuttering step of the code (decided on the code's state)
        self.stop_when_done = stop_when_done  # abort the execution as soon as the walk is complete
        self.k = 0
        self.target = None
        self.inner = 0
        self.max_inner = max_inner
        self.setup_done = False
        self.done = False
        self.mismatch = None
        self.seen = []
        self.pending_label = False

    def _find(self, sched, name):
        for t in sched.tasks:
            if t.name == name:
                return t
        return None

    def _fail(self, mm):
        self.mismatch = mm
        raise detsched.Divergence("state mismatch: " + str(mm))

    def _advance(self, sched):
        """Bookkeeping that needs no task step: complete the current action if its task is parked at a boundary (or has
        exited), execute environment actions, notice the end of the walk.  Returns True if anything changed."""
        progress = False
        while True:
            if self.target is not None:
                T = self.target
                if self.pending_label:
                    self.seen.append(T.label)
                    self.pending_label = False
                if T.state == "done" or (self.inner > 0 and self.boundary(T, self.seen)):
                    mm = self.after(self.k, self.actions[self.k], sched)
                    if mm is not None:
                        self._fail(mm)
                    self.k += 1
                    self.target = None
                    progress = True
                    continue
                return progress
            if self.k >= len(self.actions):
                if not self.done:
                    self.done = True
                    progress = True
                return progress
            if self.skip is not None and self.skip(self.k, self.actions[self.k], sched):
                mm = self.after(self.k, self.actions[self.k], sched)
                if mm is not None:
                    self._fail(mm)
                self.k += 1
                progress = True
                continue
            name = self.task_of(self.actions[self.k])
            if name is None:   # environment action: executed by the replayer itself
                self.env(self.actions[self.k], sched)
                mm = self.after(self.k, self.actions[self.k], sched)
                if mm is not None:
                    self._fail(mm)
                self.k += 1
                progress = True
                continue
            T = self._find(sched, name)
            if T is None:
                raise detsched.Divergence(f"action {self.k} {self.actions[self.k]!r}: no task named {name}")
            if not self.boundary(T, None):
                raise detsched.Divergence(f"action {self.k}: task {name} is at {T.label}, not at a boundary")
            self.target = T
            self.inner = 0
            self.seen = []
            self.pending_label = False
            progress = True

    def on_idle(self, sched):
        """Called by the scheduler when no task is enabled: the walk may continue with an environment action."""
        if not self.setup_done:
            self.setup_done = True
        return self._advance(sched)

    def pick(self, sched, enabled):
        # phase 0: let the driver and every new thread run to their first boundary
        if not self.setup_done:
            main = sched.main
            if main in enabled:
                return main
            for t in enabled:
                if t is not main and not self.boundary(t, None):
                    return t
            self.setup_done = True
        if self._advance(sched):
            enabled = [x for x in sched.tasks if x.is_enabled(sched.now)]
        if self.target is not None:
            T = self.target
            if T not in enabled:
                raise detsched.Divergence(
                    f"action {self.k} {self.actions[self.k]!r}: task {T.name} blocked at {T.label} mid-action")
            self.inner += 1
            self.pending_label = True
            if self.inner > self.max_inner:
                raise detsched.Divergence(f"action {self.k}: more than {self.max_inner} inner steps")
            return T
        if self.stop_when_done and self.done:
            raise detsched.Divergence("__walk_complete__")
        # walk finished: run everything to completion, library threads first
        rest = [t for t in enabled if t is not sched.main]
        if rest:
            return rest[0]
        if enabled:
            return enabled[0]
        raise detsched.Divergence("nothing enabled after the walk")

    def _choose(self, sched, n, label):
        if self.chooser is not None and self.k < len(self.actions):
            return self.chooser(self.actions[self.k], n, label)
        return 0


MacroReplay.choose = MacroReplay._choose


class ReplayMismatch(Exception):
    def __init__(self, k, action, expected, actual):
        super().__init__(f"after action {k} {action!r}: expected {expected!r}, implementation has {actual!r}")
        self.k = k
        self.action = action
        self.expected = expected
        self.actual = actual
