"""Shared plumbing of the per-property checks: CLI, verdict policy (DESIGN §3), evidence, replays."""

from __future__ import annotations

import argparse
import hashlib
import json
import os
import sys
import time
import traceback

VERIF = os.path.dirname(os.path.dirname(os.path.abspath(__file__)))
EVIDENCE_DIR = os.path.join(VERIF, "evidence")
REPLAY_DIR = os.path.join(VERIF, "replays")
KNOWN = os.path.join(VERIF, "known_findings.json")


def known_findings(prop):
    try:
        data = json.load(open(KNOWN))
    except FileNotFoundError:
        return []
    return [f for f in data.get("findings", []) if f.get("property") == prop and f.get("status") == "known"]


class Violation:
    def __init__(self, prop, clause, what, replay, signature=None):
        self.prop = prop
        self.clause = clause
        self.what = what
        self.replay = replay  # JSON-able dict
        self.signature = signature or clause


class Check:
    """One run of one property check."""

    def __init__(self, prop, argv=None):
        ap = argparse.ArgumentParser(prog=f"check {prop}")
        ap.add_argument("--tier", default=os.environ.get("VERIF_TIER", "quick"), choices=["quick", "thorough"])
        ap.add_argument("--replay", default=None)
        ap.add_argument("--seed", type=int, default=int(os.environ.get("VERIF_SEED", "0") or 0))
        ap.add_argument("--jobs", type=int, default=int(os.environ.get("VERIF_JOBS", "0") or 0) or (os.cpu_count() or 4))
        self.args = ap.parse_args(argv)
        self.prop = prop
        self.tier = self.args.tier
        self.seed = self.args.seed
        self.jobs = self.args.jobs
        self.t0 = time.time()
        self.violations: list[Violation] = []
        self.known_hits: dict[str, int] = {}
        self.cov = {"states": 0, "transitions": 0, "traces_validated_against_impl": 0, "samples": [],
                    "evaluations": 0, "distinct_nontrivial": 0, "rule": "", "tlc_runs": [], "exhaustive": False,
                    "drift_traces": 0}
        self.assumptions: list[str] = []
        self.notes: list[str] = []
        self._known = known_findings(prop)

    @property
    def thorough(self):
        return self.tier == "thorough"

    # ---- accounting
    def add_tlc(self, name, r):
        self.cov["states"] += r.distinct
        self.cov["transitions"] += r.generated
        self.cov["tlc_runs"].append({"name": name, **r.summary()})

    def add_trace_stats(self, name, n_traces, stats):
        self.cov["traces_validated_against_impl"] += n_traces
        self.cov["tlc_runs"].append({"name": name, "traces": n_traces, **stats})

    def sample(self, x, limit=4):
        if len(self.cov["samples"]) < limit:
            self.cov["samples"].append(x)

    def note(self, s):
        self.notes.append(s)
        print(f"[{self.prop} +{time.time() - self.t0:.0f}s] {s}", flush=True)

    # ---- verdicts
    def violation(self, clause, what, replay, signature=None):
        sig = signature or clause
        for k in self._known:
            if k.get("signature") == sig or (k.get("signature_prefix") and sig.startswith(k["signature_prefix"])) \
                    or (k.get("signature_contains") and k["signature_contains"] in sig):
                self.known_hits[k["id"]] = self.known_hits.get(k["id"], 0) + 1
                return False
        self.violations.append(Violation(self.prop, clause, what, replay, sig))
        return True

    def machinery_failure(self, msg):
        print(f"MACHINERY-FAILURE property={self.prop} {msg}", file=sys.stderr, flush=True)
        self.write_evidence(error=msg)
        sys.exit(2)

    def write_evidence(self, error=None):
        os.makedirs(EVIDENCE_DIR, exist_ok=True)
        cov = dict(self.cov)
        if not cov["samples"]:
            cov["samples"] = ["(no sample recorded)"]
        ev = {
            "property_id": self.prop,
            "tier": self.tier,
            "seed": self.seed,
            "level": "model_checking",
            "coverage": cov,
            "assumptions": self.assumptions,
            "wall_s": round(time.time() - self.t0, 2),
            "violations": len(self.violations),
            "known_findings_hit": self.known_hits,
            "notes": self.notes[-40:],
        }
        if error:
            ev["machinery_error"] = error
        tmp = os.path.join(EVIDENCE_DIR, f".{self.prop}.json.tmp")
        with open(tmp, "w") as f:
            json.dump(ev, f, indent=1, default=str)
        os.replace(tmp, os.path.join(EVIDENCE_DIR, f"{self.prop}.json"))

    def finish(self):
        for k in self._known:
            if self.known_hits.get(k["id"]):
                print(f"KNOWN-FINDING: property={self.prop} {k['what']} (hits={self.known_hits[k['id']]})", flush=True)
        rc = 0
        if self.violations:
            os.makedirs(REPLAY_DIR, exist_ok=True)
            seen = set()
            for v in self.violations:
                if v.signature in seen and len(seen) >= 1:
                    continue
                seen.add(v.signature)
                h = hashlib.sha1(json.dumps(v.replay, sort_keys=True, default=str).encode()).hexdigest()[:10]
                path = os.path.join(REPLAY_DIR, f"{self.prop}_{v.clause}_{h}.json")
                with open(path, "w") as f:
                    json.dump({"property": self.prop, "clause": v.clause, "what": v.what, "replay": v.replay}, f,
                              indent=1, default=str)
                print(f"VIOLATION property={self.prop} replay={path}", flush=True)
                print(f"  clause={v.clause}: {v.what}", flush=True)
                if len(seen) >= 5:
                    break
            rc = 1
        self.write_evidence()
        dt = time.time() - self.t0
        print(f"[{self.prop}] tier={self.tier} violations={len(self.violations)} states={self.cov['states']} "
              f"traces={self.cov['traces_validated_against_impl']} evals={self.cov['evaluations']} wall={dt:.1f}s",
              flush=True)
        sys.exit(rc)


def main_wrapper(prop, fn, argv=None):
    """Run fn(check); convert unexpected exceptions into machinery failures (exit 2)."""
    from .tlc import TLCError

    c = Check(prop, argv)
    if c.args.replay:
        sys.exit(replay_file(c.args.replay))
    try:
        fn(c)
    except SystemExit:
        raise
    except TLCError as e:
        c.machinery_failure("TLC: " + str(e)[:3000])
    except Exception as e:  # noqa: BLE001
        c.machinery_failure("exception: " + "".join(traceback.format_exception(type(e), e, e.__traceback__))[-3000:])
    c.finish()


def trace_key(trace, fields=("t", "e")):
    """Hash of a projected trace (for distinct counting)."""
    h = hashlib.sha1()
    for ev in trace:
        h.update(json.dumps({k: v for k, v in ev.items() if k not in ("i", "now")}, sort_keys=True, default=str).encode())
    return h.hexdigest()


def replay_file(path):
    """Deterministically re-execute a recorded violation: scenario + params + choices, then re-validate the trace."""
    from . import explore, tlc

    d = json.load(open(path))
    rp = d.get("replay", {})
    print(f"replay of {d.get('property')} clause={d.get('clause')}: {d.get('what')}")
    if not rp.get("scenario"):
        print(json.dumps(rp, indent=1, default=str)[:4000])
        return 0
    if rp.get("strategy"):
        from checks import pipeline_engine as pe

        rec, _s = explore.execute(rp["scenario"], rp.get("params") or {}, pe._strategy(tuple(rp["strategy"])))
    else:
        rec = explore.replay(rp["scenario"], rp.get("params") or {}, rp.get("choices") or [])
    print(f"outcome={rec['outcome']} uncaught={rec['uncaught']}")
    for ev in rec["trace"]:
        print("  ", json.dumps({k: v for k, v in ev.items() if k != 'i'}, default=str))
    if rp.get("trace_spec"):
        mod, cfg = rp["trace_spec"]
        verdicts, _ = tlc.validate_traces(mod, cfg, [rec["trace"]], parallel=1)
        print("verdict:", verdicts[0])
        return 1 if (not verdicts[0]["accepted"] or verdicts[0]["viol"]) else 0
    return 0
