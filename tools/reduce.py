#!/usr/bin/env python3
"""Shrink the history of a pipeline violation replay (delta debugging over operations), keeping it valid and paced
(checks/history_check.py) and still failing the same clause under the same timing.
usage: tools/reduce.py replays/C01_....json"""
import json
import os
import sys

sys.path.insert(0, os.path.dirname(os.path.dirname(os.path.abspath(__file__))))
from checks import history_check as hc, pipeline_engine as pe  # noqa: E402
from harness import explore, tlc  # noqa: E402

d = json.load(open(sys.argv[1]))
clause = d["clause"]
rp = d["replay"]
params = rp["params"]
spec = tuple(rp["strategy"])


def fails(ops):
    p = dict(params, ops=ops)
    if hc.check_history(p.get("start", []), p.get("outside", []), ops, paced=p.get("paced", True)):
        return False
    rec, s = explore.execute(pe.SCEN, p, pe._strategy(spec))
    if rec["outcome"] != "ok":
        return False
    v, _ = tlc.validate_traces("PipelineTrace", "PipelineTrace.cfg", [rec["trace"]], parallel=1)
    return clause in v[0]["viol"]


ops = list(params["ops"])
assert fails(ops), "does not reproduce"
changed = True
while changed:
    changed = False
    for i in range(len(ops) - 1, -1, -1):
        cand = ops[:i] + ops[i + 1:]
        if cand and fails(cand):
            ops = cand
            changed = True
            print(len(ops), ops, flush=True)
print("MINIMAL", json.dumps(ops))
