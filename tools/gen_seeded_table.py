#!/usr/bin/env python3
"""Rewrite DESIGN.md §15's table from /verif/seeded/*/meta.json (and seeded/benign/*/meta.json)."""
import glob
import json
import os
import re

V = os.path.dirname(os.path.dirname(os.path.abspath(__file__)))
rows = ["| seed | property | change (one line) | needs | verdict of `./check <property>` (quick) | failing clauses |", "|---|---|---|---|---|---|"]
for f in sorted(glob.glob(os.path.join(V, "seeded", "C*", "meta.json"))):
    m = json.load(open(f))
    sid = os.path.basename(os.path.dirname(f))
    rows.append("| %s | %s | %s | %s | %s | %s |" % (sid, m.get("breaks_property", m.get("property")), str(m.get("summary", "")).replace("|", "/")[:260],
                str(m.get("needs", "")).replace("|", "/")[:200], m.get("check_verdict", "?"), str(m.get("failing_clauses", "")).replace("|", "/")))
ben = sorted(glob.glob(os.path.join(V, "seeded", "benign", "*", "meta.json")))
if ben:
    rows += ["", "Negative controls (property-preserving changes; every check named must stay quiet):", "",
             "| control | change | checks run | verdict |", "|---|---|---|---|"]
    for f in ben:
        m = json.load(open(f))
        rows.append("| %s | %s | %s | %s |" % (os.path.basename(os.path.dirname(f)), str(m.get("summary", "")).replace("|", "/")[:240],
                                               ", ".join(m.get("checks_run", [])), m.get("verdict", "?")))
p = os.path.join(V, "DESIGN.md")
s = open(p).read()
block = "<!-- SEEDED-TABLE-BEGIN -->\n" + "\n".join(rows) + "\n<!-- SEEDED-TABLE-END -->"
if "<!-- SEEDED-TABLE-BEGIN -->" in s:
    s = re.sub(r"<!-- SEEDED-TABLE-BEGIN -->.*?<!-- SEEDED-TABLE-END -->", lambda _m: block, s, flags=re.S)
else:
    s = s.replace("SEEDED_TABLE_PLACEHOLDER", block)
open(p, "w").write(s)
print(len(rows), "rows")
