#!/usr/bin/env python3
"""Run a command against a MUTATED SCRATCH COPY of /repo/src (never touches /repo itself).

usage: mut.py <relpath-under-/repo> <old> <new> -- <cmd...>
       mut.py --patch <file.diff> -- <cmd...>          (a unified diff against /repo, applied with `patch -p1`)

The copy lives under $TMPDIR (default /tmp), the command runs with WATCHDOG_SRC=<copy>/src (harness/loader.py and
every check import watchdog from there) and the copy is removed afterwards.
"""
import os
import shutil
import subprocess
import sys
import tempfile

i = sys.argv.index("--")
cmd = sys.argv[i + 1:]
tmp = tempfile.mkdtemp(prefix="verif-mut-", dir=os.environ.get("TMPDIR", "/tmp"))
try:
    shutil.copytree("/repo/src", os.path.join(tmp, "src"), ignore=shutil.ignore_patterns("__pycache__", "*.egg-info"))
    if sys.argv[1] == "--patch":
        p = subprocess.run(["patch", "-p1", "-d", tmp, "-i", os.path.abspath(sys.argv[2])], capture_output=True, text=True)
        if p.returncode != 0:
            print("mut: patch failed:\n" + p.stdout + p.stderr, file=sys.stderr)
            sys.exit(3)
    else:
        rel, old, new = sys.argv[1:4]
        assert rel.startswith("src/"), "path must be relative to /repo and start with src/"
        path = os.path.join(tmp, rel)
        src = open(path).read()
        if src.count(old) != 1:
            print(f"mut: pattern occurs {src.count(old)} times", file=sys.stderr)
            sys.exit(3)
        open(path, "w").write(src.replace(old, new))
    env = dict(os.environ, WATCHDOG_SRC=os.path.join(tmp, "src"))
    rc = subprocess.call(cmd, env=env)
finally:
    shutil.rmtree(tmp, ignore_errors=True)
print("mut: rc =", rc)
sys.exit(0)
