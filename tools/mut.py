#!/usr/bin/env python3
"""Apply a textual mutation to a file under /repo, run a command, always revert (git checkout).
usage: mut.py <relpath> <old> <new> -- <cmd...>"""
import subprocess, sys
i = sys.argv.index("--")
rel, old, new = sys.argv[1:4]
cmd = sys.argv[i + 1:]
path = "/repo/" + rel
src = open(path).read()
if src.count(old) != 1:
    print(f"mut: pattern occurs {src.count(old)} times", file=sys.stderr); sys.exit(3)
open(path, "w").write(src.replace(old, new))
try:
    rc = subprocess.call(cmd)
finally:
    subprocess.call(["git", "-C", "/repo", "checkout", "--", rel])
print("mut: rc =", rc)
sys.exit(0)
