#!/usr/bin/env python3
"""Regenerate /verif/MANIFEST.json from the table below (claimed checks) + properties.jsonl."""
import json
import os

V = os.path.dirname(os.path.dirname(os.path.abspath(__file__)))
props = [json.loads(l) for l in open(os.path.join(V, "properties.jsonl"))]

TECH = ("explicit TLA+ specification model-checked with TLC; bound to the code in both directions: TLC "
        "behaviours replayed into the real code, and traces recorded from the real code (under a deterministic "
        "scheduler) validated by TLC against a trace specification")

CLAIMED = {
    "C16": {
        "engine": "object",
        "design_ref": "DESIGN.md §4.4, §7 C16",
        "text": "SkipRepeatsQueue.tla (implementation-shaped: unlocked double read of _last_item, enqueue and dequeue "
                "critical sections) is checked exhaustively by TLC for 2-3 producers; a transition cover of the model "
                "is replayed step by step on the real queue (state compared after every action); call/return traces "
                "of the real queue from all put/get words, bounded-preemption DFS and random schedules are validated "
                "by TLC against the most permissive C16-object (SkipRepeatsQueueTrace.tla, unlogged linearization "
                "points); the event equality/hash law is a monitor over all pairs of an enumerated event set.",
        "note": "Trusted: detsched shims model threading/queue faithfully (queue.Queue is CPython's own source run on "
                "the shims); _last_item accesses are the only unlocked shared accesses. Bounded: <=3 producers, <=4 puts "
                "each, preemption bound 2 (quick) / 3 (thorough) for DFS.",
        "technique": "TLA+ model checking (TLC) + trace validation of real executions + spec-to-code replay",
    },
    "C17": {
        "engine": "object",
        "design_ref": "DESIGN.md §4.4, §7 C17",
        "text": "DelayedQueue.tla (implementation-shaped consumer loop: lock / wait / peek / sleep with the lock released / "
                "head identity re-check; close() as unlocked flag write + locked notify; virtual clock with gaps around the "
                "delay boundary) is checked exhaustively by TLC including the liveness property 'close() unblocks' under "
                "fairness; the real DelayedQueue runs on a virtual clock under the deterministic scheduler (all sequential "
                "words, bounded-preemption DFS on concurrent programs incl. a clock thread, random programs) and TLC "
                "validates every call/return/tick trace against the most permissive C17-object (DelayedQueueTrace.tla); a transition "
                "cover of the model's dumped state graph is replayed action by action on the real queue with the state compared "
                "after every action (spec -> code).",
        "note": "Trusted: detsched shims (threading, time). Time is virtual and integral; 'never early' is judged on the "
                "shim clock the library itself reads. Bounded: programs of <=7 operations, preemption bound 2 / 3.",
        "technique": "TLA+ model checking (TLC, safety + liveness) + trace validation of real executions + spec-to-code replay",
    },
    "C04": {
        "engine": "observer",
        "design_ref": "DESIGN.md §4.3, §7 C04",
        "text": 'Observer.tla (registry under a re-entrant lock, emitter threads, dispatcher with copied handler set and membership re-check, API calls as their real step sequences, callbacks calling the API re-entrantly) is model-checked exhaustively by TLC for the dispatch/callback program families; the real BaseObserver runs under the deterministic scheduler (bounded-preemption DFS on the delivery/removal families, random programs) and TLC validates every black-box trace (call/ret, queued, cb, quiescent) against ObserverTrace.tla: a reference dispatcher that snapshots the handler set when it takes an event and must call each snapshot member exactly once, in queue order, with linearization points left to TLC.',
        "note": 'Trusted: detsched shims; scripted emitters and recording handlers are harness-side subclasses of the public EventEmitter / FileSystemEventHandler. Bounded: <=2 application threads, <=3 handlers, 2 watches (10 spellings of 5 watch identities on one path in the identity family), <=3 events per emitter, preemption bound 1 (quick) / 2 (thorough). Clauses owned by a sibling property are left to its check.',
        "technique": "TLA+ model checking (TLC, safety + liveness) + trace validation of real executions under a deterministic scheduler + spec-to-code replay of Observer.tla walks on the real BaseObserver",
    },
    "C05": {
        "engine": "observer",
        "design_ref": "DESIGN.md §4.3, §7 C05",
        "text": 'Same model and engine as C04; program family: removal by another thread and re-entrantly from a callback at every position of a 3-event stream, unschedule/unschedule_all/stop. ObserverTrace.tla bans a (handler, watch) pair at the return of the removing call (unless a registering call is in flight) and silences the emitters it removed; a callback or queued event after that is unexplainable. Observer.tla carries C05_NoCallAfterReturn / C05_EmitterStoppedOnReturn, checked by TLC.',
        "note": 'Trusted: detsched shims; scripted emitters and recording handlers are harness-side subclasses of the public EventEmitter / FileSystemEventHandler. Bounded: <=2 application threads, <=3 handlers, 2 watches (10 spellings of 5 watch identities on one path in the identity family), <=3 events per emitter, preemption bound 1 (quick) / 2 (thorough). Clauses owned by a sibling property are left to its check.',
        "technique": "TLA+ model checking (TLC, safety + liveness) + trace validation of real executions under a deterministic scheduler + spec-to-code replay of Observer.tla walks on the real BaseObserver",
    },
    "C06": {
        "engine": "observer",
        "design_ref": "DESIGN.md §4.3, §7 C06",
        "text": "Observer.tla is checked by TLC for deadlock freedom (explicit terminal stutter), for 'no library thread left after stop()+join()' and for the liveness property C06_StopTerminates under weak fairness; the real BaseObserver runs all lifecycle programs (start/schedule/unschedule/unschedule_all/stop twice/join from two threads and from callbacks) under bounded-preemption DFS; the scheduler's exact deadlock detection and the thread table after join() are trace lines judged by ObserverTrace.tla.",
        "note": 'Trusted: detsched shims; scripted emitters and recording handlers are harness-side subclasses of the public EventEmitter / FileSystemEventHandler. Bounded: <=2 application threads, <=3 handlers, 2 watches (10 spellings of 5 watch identities on one path in the identity family), <=3 events per emitter, preemption bound 1 (quick) / 2 (thorough). Clauses owned by a sibling property are left to its check.',
        "technique": "TLA+ model checking (TLC, safety + liveness) + trace validation of real executions under a deterministic scheduler + spec-to-code replay of Observer.tla walks on the real BaseObserver",
    },
    "C13": {
        "engine": "observer",
        "design_ref": "DESIGN.md §4.3, §7 C13",
        "text": 'Every sequentially valid API call sequence up to length 3 (quick) / 4 (thorough) over 2 watches x 2 handlers is executed on the real observer with a black-box probe after every call (observer.emitters, is_alive(), marker-event routes through the public dispatch_events) and compared by TLC with the reference map of ObserverTrace.tla; schedule() failures (emitter cannot be created / started) at every position; schedule racing with start under DFS. Observer.tla carries C13_RegistryIsMap / C13_NoStaleHandlers / C13_EveryScheduledWatchRuns; the two repaired defects, switched back on, are required to violate them (non-vacuity).',
        "note": 'Trusted: detsched shims; scripted emitters and recording handlers are harness-side subclasses of the public EventEmitter / FileSystemEventHandler. Bounded: <=2 application threads, <=3 handlers, 2 watches (10 spellings of 5 watch identities on one path in the identity family), <=3 events per emitter, preemption bound 1 (quick) / 2 (thorough). Clauses owned by a sibling property are left to its check.',
        "technique": "TLA+ model checking (TLC, safety + liveness) + trace validation of real executions under a deterministic scheduler + spec-to-code replay of Observer.tla walks on the real BaseObserver",
    },
    "C12": {
        "engine": "fd",
        "design_ref": "DESIGN.md §4.4, §5.3, §7 C12",
        "text": "InotifyFd.tla (constructor with a failing kernel call at every position, reader loop, close() hand-over decided by is_reading under the lock, several closers) is checked exhaustively by TLC incl. liveness (reader exits after stop); the three repaired defects (D1 constructor leak, D2 initial is_reading, D13 add_watch after close) switched back on must violate their invariants. The real Inotify / InotifyBuffer / InotifyObserver run on a real scratch directory with the OS seam (descriptor shadow table, fault directives at the ctypes boundary) under the deterministic scheduler: one program per (kernel call position x errno x level), bounded-preemption DFS of close() against the read loop, random + PCT schedules on the deeper stacks; TLC validates every sys-call trace against the per-descriptor state machine of InotifyFdTrace.tla; plus real-thread, real-kernel schedule/start/stop cycles comparing /proc/self/fd and threading.enumerate().",
        "note": "Trusted: the seam sees every descriptor the library obtains (inotify_init, os.pipe); injected errno values are what the kernel would return. Bounded: trees of 1-4 directories, <=2 closers, preemption bound 2 (quick) / 3 (thorough) at the Inotify level, sampled schedules above it.",
        "technique": "TLA+ model checking (TLC, safety + liveness) + fault enumeration at the OS seam + trace validation of real executions + spec-to-code replay of InotifyFd.tla walks on the real InotifyBuffer",
    },
    "C09": {
        "engine": "function",
        "design_ref": "DESIGN.md §4.5, §7 C09",
        "text": 'SnapshotDiff.tla transcribes DirectorySnapshotDiff.__init__ step by step and states the ten laws of C09 (partition/replay of the path set, moved iff same identity elsewhere, created/deleted iff identity absent from the other side, modified iff same identity and mtime/size changed, kind lists, self-diff empty, swap symmetry, ignore_device) as invariants; TLC checks them over every ordered pair of snapshots of bounded universes (quick 50,625 pairs x 2; thorough five universes, 1.9M states). The real DirectorySnapshot/DirectorySnapshotDiff (also via `-` and the ContextManager, recursive and not) are run on the same universes through injectable stat/listdir and every (ref, snap, ignore_device, eight actual lists) line is validated by TLC against SnapshotDiffTrace.tla, whose monitors are the laws themselves; plus random larger trees.',
        "note": 'Trusted: the laws as read in DESIGN §7 (identity = (ino, dev), or inode number under ignore_device; a moved-and-modified entry may be listed under either path). Exhaustive for the quick universe (names {a,b}, depth 2, 3 inodes, 2 devices / mtimes / sizes split over configs), sampled beyond.',
        "technique": 'TLA+ model checking (TLC) over all snapshot pairs + law monitors (TLC) over outputs of the real code',
    },
    "C10": {
        "engine": "polling",
        "design_ref": "DESIGN.md §4.5, §7 C10",
        "text": "Polling.tla models a virtual file system, the snapshot walk at the granularity of one listdir/stat call with an ENOENT/ENOTDIR/EACCES fault injectable at every call position, and the emitter (timer, take snapshot, emit diff in the code's class order, root gone); TLC checks the six C10 invariants and C10_StoppedIsFinal exhaustively, and four seeded deviations of the model must be rejected. The real PollingEmitter (direct queue_events driving through PollingObserverVFS-style stat/listdir, and the threaded PollingObserverVFS under the deterministic scheduler with a manual poll timer) is run over all histories of <=2 (quick) / <=3 (thorough) tree states x a fault at every call position x recursive/non-recursive; TLC validates per-poll traces (VFS state, fault, queued events) against PollingTrace.tla, which recomputes the expected diff itself.",
        "note": 'Trusted: the VFS object serves what the model says (stat results, directory entries, faults). Bounded: <=3 entries, <=3 polls, one fault per walk in the exhaustive part; random longer histories beyond.',
        "technique": 'TLA+ model checking (TLC) + fault enumeration at every stat/listdir position + trace validation of the real emitter',
    },
    "C14": {
        "engine": "function",
        "design_ref": "DESIGN.md §4.5, §7 C14",
        "text": "SubEvents.tla defines the synthetic moved / created events over name sequences (prefix rewrite) and, separately, the textual str.replace rewrite the code used (Dev_TextualReplace); TLC checks the C14 laws over all trees of the {r,x,y} universe x all (src, dst) pairs (thorough: 43,785 trees) and proves that the deviation differs exactly when the destination string re-occurs; the negative config (deviation switched on) must be refuted. Every case is materialised on disk (relative/absolute x str/bytes, colliding name universes, the scratch root's own components repeated below the destination, random trees), the real generate_sub_moved_events / generate_sub_created_events are called, results are projected byte-exactly to name sequences and validated by TLC against SubEventsTrace.tla (one per descendant, destination real, source = old prefix + same relative path, flavour, parents first, synthetic).",
        "note": "Trusted: projection (strip root spelling, split on os.sep, exact byte lookup in the case's name table). Exhaustive over the enumerated universes (state count cross-checked between TLC and the Python enumeration).",
        "technique": 'TLA+ model checking (TLC) over all trees x pairs + law monitors (TLC) over outputs of the real generators + PipelineTrace.tla C14 clauses over directory renames on the real inotify observer',
    },
    "C01": {
        "engine": "pipeline",
        "design_ref": "DESIGN.md §4.1, §4.2, §7 C01",
        "text": 'Paced operation histories are generated by TLC from FsKernel.tla/FsGen.tla (inode-centric VFS + inotify model with the pacing condition as a predicate on the driver); every history runs on the real InotifyObserver against the real kernel under the deterministic scheduler with several relative timings and read splits, recursive and non-recursive, str and bytes roots; TLC replays the delivered created/deleted/moved events onto the start tree inside PipelineTrace.tla (total Apply function of DESIGN §7) and compares with the real tree at every drain point (P_C01_ReplicaMatches).',
        "note": "Trusted: detsched shims; the OS seam only adds control (read splits, yield points) to the REAL kernel; the driver's own record of the tree (verified against os.walk at the end of every scenario); pacing condition as FsKernel.PacingOK (DESIGN §7). Bounded: exhaustive over TLC histories of <=2 (quick) / <=3 (thorough) operations from 3 start trees over names {a,b}; timings library-first / driver-first / random / PCT with random read splits; random histories of 12-60 operations beyond. No queue overflow, no links.",
        "technique": 'TLA+ model checking (TLC) of the kernel/pacing model for history generation + trace validation (TLC) of real executions on the real kernel under a deterministic scheduler',
    },
    "C02": {
        "engine": "pipeline",
        "design_ref": "DESIGN.md §7 C02",
        "text": "Same histories/timings as C01, restricted to directory-shaping ones, with probe rounds (one probe file in every directory of the real tree, mid-history and at the end): PipelineTrace.tla requires a FileCreated callback with exactly the probe's real path before the next drain point (P_C02_ProbeReported) and silence below the root's direct children for non-recursive watches (P_C02_NonRecursiveSilentBelow).",
        "note": "Trusted: detsched shims; the OS seam only adds control (read splits, yield points) to the REAL kernel; the driver's own record of the tree (verified against os.walk at the end of every scenario); pacing condition as FsKernel.PacingOK (DESIGN §7). Bounded: exhaustive over TLC histories of <=2 (quick) / <=3 (thorough) operations from 3 start trees over names {a,b}; timings library-first / driver-first / random / PCT with random read splits; random histories of 12-60 operations beyond. No queue overflow, no links.",
        "technique": 'TLA+ model checking (TLC) of the kernel/pacing model for history generation + trace validation (TLC) of real executions on the real kernel under a deterministic scheduler',
    },
    "C03": {
        "engine": "pipeline",
        "design_ref": "DESIGN.md §7 C03",
        "text": "Soundness: every callback of every execution must be justified (PipelineTrace.tla: Justified over facts derived from the harness's own record of each operation: entry kind, descendants that travel with it; flavour, moved endpoints, synthetic only for descendants of a moved / arrived directory). Completeness: every TLC history is also run one operation at a time and each window is compared with Contract(op), written from the property text and inotify(7): nothing missing, nothing added, top events exactly once; recursive/non-recursive x normal/full emitter. One recorded known finding (D7: a moved-out directory keeps its kernel watch) is matched by its own deviation clause.",
        "note": "Trusted: detsched shims; the OS seam only adds control (read splits, yield points) to the REAL kernel; the driver's own record of the tree (verified against os.walk at the end of every scenario); pacing condition as FsKernel.PacingOK (DESIGN §7). Bounded: exhaustive over TLC histories of <=2 (quick) / <=3 (thorough) operations from 3 start trees over names {a,b}; timings library-first / driver-first / random / PCT with random read splits; random histories of 12-60 operations beyond. No queue overflow, no links.",
        "technique": 'TLA+ model checking (TLC) of the kernel/pacing model for history generation + trace validation (TLC) of real executions on the real kernel under a deterministic scheduler',
    },
    "C07": {
        "engine": "pipeline",
        "design_ref": "DESIGN.md §7 C07",
        "text": 'Families: unpaced random histories (no library thread may die), entries that left the tree / re-used names followed by probe rounds, deletion of the watched root (exactly one DirDeleted(root), emitter stops), transient inotify_add_watch failures at every call position of short histories, stop() racing with the emitter (random + PCT schedules). Uncaught exceptions in library threads, thread exits and the final probe are trace lines judged by PipelineTrace.tla (P_C07_*).',
        "note": "Trusted: detsched shims; the OS seam only adds control (read splits, yield points) to the REAL kernel; the driver's own record of the tree (verified against os.walk at the end of every scenario); pacing condition as FsKernel.PacingOK (DESIGN §7). Bounded: exhaustive over TLC histories of <=2 (quick) / <=3 (thorough) operations from 3 start trees over names {a,b}; timings library-first / driver-first / random / PCT with random read splits; random histories of 12-60 operations beyond. No queue overflow, no links.",
        "technique": 'TLA+ model checking (TLC) of the kernel/pacing model for history generation + trace validation (TLC) of real executions on the real kernel under a deterministic scheduler',
    },
    "C11": {
        "engine": "pipeline",
        "design_ref": "DESIGN.md §7 C11",
        "text": "Two watches on the same real root, one filtered and one not, driven one operation at a time through a tour of the whole vocabulary, TLC histories and random histories; filters: every concrete class, both base classes, pairs; recursive/non-recursive, normal/full. PipelineTrace.tla compares the run-collapsed filtered sequence with the unfiltered one restricted to the filter's classes, base classes included (P_C11_FilterOnlyRemoves).",
        "note": "Trusted: detsched shims; the OS seam only adds control (read splits, yield points) to the REAL kernel; the driver's own record of the tree (verified against os.walk at the end of every scenario); pacing condition as FsKernel.PacingOK (DESIGN §7). Bounded: exhaustive over TLC histories of <=2 (quick) / <=3 (thorough) operations from 3 start trees over names {a,b}; timings library-first / driver-first / random / PCT with random read splits; random histories of 12-60 operations beyond. No queue overflow, no links.",
        "technique": 'TLA+ model checking (TLC) of the kernel/pacing model for history generation + trace validation (TLC) of real executions on the real kernel under a deterministic scheduler',
    },
    "C19": {
        "engine": "pipeline",
        "design_ref": "DESIGN.md §7 C19",
        "text": "Seven root spellings (str, bytes, pathlib.Path, trailing slash str/bytes, relative str/bytes) x inotify / polling observer x names with non-ASCII and undecodable bytes over the whole vocabulary, TLC histories and random histories; the harness projects every event path byte-exactly against the name table ('?' on mismatch) and PipelineTrace.tla requires the watch's type tag and no '?' for source, destination, synthetic and parent-modified events (P_C19_TypePreserved, P_C19_ExactName).",
        "note": "Trusted: detsched shims; the OS seam only adds control (read splits, yield points) to the REAL kernel; the driver's own record of the tree (verified against os.walk at the end of every scenario); pacing condition as FsKernel.PacingOK (DESIGN §7). Bounded: exhaustive over TLC histories of <=2 (quick) / <=3 (thorough) operations from 3 start trees over names {a,b}; timings library-first / driver-first / random / PCT with random read splits; random histories of 12-60 operations beyond. No queue overflow, no links. The byte-level comparison lives in the harness projection; TLA+ sees name ids.",
        "technique": 'TLA+ model checking (TLC) of the kernel/pacing model for history generation + trace validation (TLC) of real executions on the real kernel under a deterministic scheduler',
    },
    "C15": {
        "engine": "function",
        "design_ref": "DESIGN.md §4.5, §7 C15",
        "text": "Handlers.tla states the dispatch rules (base: on_any_event then exactly the one on_<type>; pattern rule and regex rule over an uninterpreted match relation, include/exclude lists of size 0..3, case_sensitive, ignore_directories, one- and two-path events); TLC enumerates every Boolean match matrix: its reachable set is the decision table (18,211 rows), and the old behaviour (empty dest_path matched as a path) switched back on must be refuted. Concrete events x pattern/regex lists x flags are run through the real handlers with recording subclasses; the match matrix is computed by an independent reference (pathlib PurePosixPath/PureWindowsPath.match, re.match) and every case line is validated by TLC against HandlersTrace.tla (P_C15_AnyThenTyped, P_C15_PatternDecision, P_C15_RegexDecision, filter_paths sub-sequence / agreement with pathlib / conflict rejection).",
        "note": "Trusted: pathlib and re as the reference for one path vs one pattern; 'its paths' = the non-empty ones of src_path/dest_path. Bounded: alphabet of ~10 paths with case variants, ~20 pattern lists, ~15 regex lists.",
        "technique": "TLA+ model checking (TLC) decision table + law monitors (TLC) over outputs of the real handlers",
    },
    "C08": {
        "engine": "buffer",
        "design_ref": "DESIGN.md §4.4, §7 C08",
        "text": "Pairing.tla (reader grouping one event at a time: search the batch grouped so far, then remove(matching_from) from the delay queue; puts with delay only for an unmatched first half; IN_IGNORED dropped; abstract C17 delay queue; virtual clock) is checked by TLC over every well-formed native sequence up to length 2 (quick) / 3 (thorough) over {MF1,MT1,MF2,MT2,X,IGNORED}, every cut into read batches, every gap around the delay and every interleaving of reader and consumer. The real InotifyBuffer + Inotify.read_events are fed the same scripted sequences as raw inotify_event bytes through the os.read seam on the virtual clock (every sequence x batching x gaps, default/random schedules, DFS on racy programs) and TLC validates the fed/got/tick traces against PairingTrace.tla (exactly once, kernel order with a pair in the slot of one half, cookie mates, lone first half never early, lone second half only if the first had been handed out).",
        "note": "Trusted: scripted inotify_event bytes per inotify(7) stand for the kernel; the OS seam; detsched shims. 'In time' is judged at the reader's processing step, which coincides with the read under the scheduler.",
        "technique": "TLA+ model checking (TLC) + trace validation of the real buffer fed scripted native sequences under a deterministic scheduler",
    },
    "C20": {
        "engine": "xlat",
        "design_ref": "DESIGN.md §4.6, §7 C20",
        "text": "WinXlat.tla and FSEventsXlat.tla model the translation tables of WindowsApiEmitter.queue_events and FSEventsEmitter.queue_events over native batches generated from an abstract file system (XlatCommon.tla: operations, pacing, total Apply, per-operation contract), Codec.tla the framing of the two binary buffers; TLC checks replica / rename-contract / move-in-out / non-recursive clauses exhaustively for <=2 (quick) / <=4 (thorough) operations with all FSEvents coalescings and batch cuts, and every recorded defect switched on must be refuted by its negative configuration. The real emitters are imported on Linux through shims (fake ctypes.WinDLL, fake _watchdog_fsevents deriving its flags from the public kFSEventStreamEventFlag* bits), operations are executed on a real scratch tree, a documented-semantics simulator renders them into native batches fed to the real queue_events, and TLC validates the queued events against XlatTrace.tla; decoder round trips feed encoded record sequences to the real _parse_event_buffer functions. Known findings W2, F1-F4 are matched by their own signatures; W1 and W3 were repaired.",
        "note": "Limits, as the property itself says: native streams come from a simulator of the documented OS semantics, not from Windows/macOS; on this LP64 platform DWORD is 8 bytes, so the Windows buffer is encoded with the module's own FileNotifyInformation layout (cursor logic checked, ABI width not); scratch trees on tmpfs.",
        "technique": "TLA+ model checking (TLC) + trace validation of the real translation layers fed simulated native batches",
    },
}

CLAIMED["C18"] = {
    "engine": "tricks",
    "design_ref": "DESIGN.md §7 C18, §13",
    "text": "Debouncer.tla (condition variable, predicate wait, interval timer on a virtual clock, stop), AutoRestart.tla (restart from the dispatcher / debouncer / process-watcher threads, stop(), the two flags under _stopping_lock, the restart lock, a process table with children that exit by themselves or ignore the stop signal) and ShellCommand.tla (drop_during_process / wait_for_process) are implementation-shaped and model-checked by TLC (safety + liveness under fairness); the repaired defects are switches (FixD8, FixLock) whose negative configurations must be refuted. The real EventDebouncer, AutoRestartTrick, ShellCommandTrick and ProcessWatcher run under the deterministic scheduler with a simulated process table behind subprocess.Popen / os.kill (sequential programs, bounded-preemption DFS on event x self-exit x stop races, random + PCT schedules) and TLC validates every call/return/spawn/kill/callback/tick trace against TricksTrace.tla (batches delivered once, in arrival order, after a quiet interval; at most one child; every spawn paid for by a trigger; nothing alive after stop() returned; helper threads gone; no exception).",
    "note": "Trusted: detsched shims incl. the fake process table (children are records with an exit plan; signals per kill_after semantics); time is virtual. Bounded: <=3 events, <=2 self-exits, one stop(), preemption bound 0-2, at most 1200 executions per DFS program in quick. watchmedo's command-line glue and YAML loading are out of scope.",
    "technique": "TLA+ model checking (TLC, safety + liveness) + trace validation of the real tricks under a deterministic scheduler with a simulated process table",
}

NOT_YET = "check not built yet (in progress, see DESIGN.md §12)"

m = {
    "version": 1,
    "setup_cmd": "./setup.sh",
    "hooks": {
        "guard": "WATCHDOG_VERIF",
        "enable": "no source hooks: checks import watchdog from /repo/src into a shimmed interpreter "
                  "(harness/loader.py); WATCHDOG_VERIF is read by the harness only",
        "baseline_off_cmd": "cd /repo && /venv/bin/python -m pytest -ra -q -p no:cacheprovider --timeout=900 "
                            "--continue-on-collection-errors",
        "source_commits": [],
        "add_only": True,
    },
    "engines": [
        {"name": "detsched", "path": "harness/detsched.py", "serves_properties": sorted(CLAIMED),
         "kind_free_text": "deterministic scheduler + threading/time/queue/select shims; DFS / random / PCT / replay strategies"},
        {"name": "tlc-bridge", "path": "harness/tlc.py", "serves_properties": sorted(CLAIMED),
         "kind_free_text": "TLC runs, dot-graph transition cover, batch trace validation"},
    ],
    "checks": [],
    "notes": "Every check: exit 0 = held, exit 1 + VIOLATION line = violated, exit 2 = machinery failure. "
             "TECHNIQUE for all: " + TECH,
    "not_applicable": [],
}
for p in props:
    pid = p["id"]
    if pid in CLAIMED:
        c = CLAIMED[pid]
        m["checks"].append({
            "property_id": pid,
            "quick_cmd": f"./check {pid} --tier quick",
            "thorough_cmd": f"./check {pid} --tier thorough",
            "evidence_file": f"/verif/evidence/{pid}.json",
            "replay_cmd_template": f"./check {pid} --replay {{path}}",
            "engine": c["engine"],
            "level_claimed": {"category": "model_checking", "text": c["text"], "design_ref": c["design_ref"]},
            "level_note": c["note"],
            "technique": c["technique"],
        })
    else:
        m["not_applicable"].append({"property_id": pid, "reason": NOT_YET})
json.dump(m, open(os.path.join(V, "MANIFEST.json"), "w"), indent=1)
print("claimed:", sorted(CLAIMED))
