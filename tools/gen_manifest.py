#!/usr/bin/env python3
"""Regenerate /verif/MANIFEST.json from the table below (claimed checks) + properties.jsonl."""
import json
import os

V = os.path.dirname(os.path.dirname(os.path.abspath(__file__)))
props = [json.loads(l) for l in open(os.path.join(V, "properties.jsonl"))]

TECH = ("explicit TLA+ specification model-checked with TLC; bound to the code in both directions: TLC "
        "behaviours replayed into the real code, and traces recorded from the real code (under a deterministic "
        "scheduler) validated by TLC against a trace specification")

CLAIMED = {
    "C16": {
        "engine": "object",
        "design_ref": "DESIGN.md §4.4, §7 C16",
        "text": "SkipRepeatsQueue.tla (implementation-shaped: unlocked double read of _last_item, enqueue and dequeue "
                "critical sections) is checked exhaustively by TLC for 2-3 producers; a transition cover of the model "
                "is replayed step by step on the real queue (state compared after every action); call/return traces "
                "of the real queue from all put/get words, bounded-preemption DFS and random schedules are validated "
                "by TLC against the most permissive C16-object (SkipRepeatsQueueTrace.tla, unlogged linearization "
                "points); the event equality/hash law is a monitor over all pairs of an enumerated event set.",
        "note": "Trusted: detsched shims model threading/queue faithfully (queue.Queue is CPython's own source run on "
                "the shims); _last_item accesses are the only unlocked shared accesses. Bounded: <=3 producers, <=4 puts "
                "each, preemption bound 2 (quick) / 3 (thorough) for DFS.",
        "technique": "TLA+ model checking (TLC) + trace validation of real executions + spec-to-code replay",
    },
    "C17": {
        "engine": "object",
        "design_ref": "DESIGN.md §4.4, §7 C17",
        "text": "DelayedQueue.tla (implementation-shaped consumer loop: lock / wait / peek / sleep with the lock released / "
                "head identity re-check; close() as unlocked flag write + locked notify; virtual clock with gaps around the "
                "delay boundary) is checked exhaustively by TLC including the liveness property 'close() unblocks' under "
                "fairness; the real DelayedQueue runs on a virtual clock under the deterministic scheduler (all sequential "
                "words, bounded-preemption DFS on concurrent programs incl. a clock thread, random programs) and TLC "
                "validates every call/return/tick trace against the most permissive C17-object (DelayedQueueTrace.tla).",
        "note": "Trusted: detsched shims (threading, time). Time is virtual and integral; 'never early' is judged on the "
                "shim clock the library itself reads. Bounded: programs of <=7 operations, preemption bound 2 / 3.",
        "technique": "TLA+ model checking (TLC, safety + liveness) + trace validation of real executions",
    },
}

NOT_YET = "check not built yet (in progress, see DESIGN.md §12)"

m = {
    "version": 1,
    "setup_cmd": "./setup.sh",
    "hooks": {
        "guard": "WATCHDOG_VERIF",
        "enable": "no source hooks: checks import watchdog from /repo/src into a shimmed interpreter "
                  "(harness/loader.py); WATCHDOG_VERIF is read by the harness only",
        "baseline_off_cmd": "cd /repo && /venv/bin/python -m pytest -ra -q -p no:cacheprovider --timeout=900 "
                            "--continue-on-collection-errors",
        "source_commits": [],
        "add_only": True,
    },
    "engines": [
        {"name": "detsched", "path": "harness/detsched.py", "serves_properties": sorted(CLAIMED),
         "kind_free_text": "deterministic scheduler + threading/time/queue/select shims; DFS / random / PCT / replay strategies"},
        {"name": "tlc-bridge", "path": "harness/tlc.py", "serves_properties": sorted(CLAIMED),
         "kind_free_text": "TLC runs, dot-graph transition cover, batch trace validation"},
    ],
    "checks": [],
    "notes": "Every check: exit 0 = held, exit 1 + VIOLATION line = violated, exit 2 = machinery failure. "
             "TECHNIQUE for all: " + TECH,
    "not_applicable": [],
}
for p in props:
    pid = p["id"]
    if pid in CLAIMED:
        c = CLAIMED[pid]
        m["checks"].append({
            "property_id": pid,
            "quick_cmd": f"./check {pid} --tier quick",
            "thorough_cmd": f"./check {pid} --tier thorough",
            "evidence_file": f"/verif/evidence/{pid}.json",
            "replay_cmd_template": f"./check {pid} --replay {{path}}",
            "engine": c["engine"],
            "level_claimed": {"category": "model_checking", "text": c["text"], "design_ref": c["design_ref"]},
            "level_note": c["note"],
            "technique": c["technique"],
        })
    else:
        m["not_applicable"].append({"property_id": pid, "reason": NOT_YET})
json.dump(m, open(os.path.join(V, "MANIFEST.json"), "w"), indent=1)
print("claimed:", sorted(CLAIMED))
