#!/usr/bin/env python3
"""Validate MANIFEST.json and every evidence file against the schemas in /root/.vp (uses the tooling venv's jsonschema)."""
import glob
import json
import subprocess
import sys

code = r'''
import json, glob, sys, jsonschema
m = json.load(open("/verif/MANIFEST.json"))
jsonschema.validate(m, json.load(open("/root/.vp/MANIFEST.schema.json")))
es = json.load(open("/root/.vp/EVIDENCE.schema.json"))
bad = 0
claimed = {c["property_id"] for c in m["checks"]}
for pid in sorted(claimed):
    f = f"/verif/evidence/{pid}.json"
    try:
        e = json.load(open(f)); jsonschema.validate(e, es)
        print(pid, "ok", e["tier"], "states", e["coverage"].get("states"), "traces", e["coverage"].get("traces_validated_against_impl"), "viol", e.get("violations"))
    except Exception as ex:
        bad += 1; print(pid, "INVALID", str(ex)[:200])
props = [json.loads(l)["id"] for l in open("/verif/properties.jsonl")]
na = {x["property_id"] for x in m.get("not_applicable", [])}
missing = [p for p in props if p not in claimed and p not in na]
print("unaccounted properties:", missing)
sys.exit(1 if bad or missing else 0)
'''
sys.exit(subprocess.call(["/opt/veriftools/pyvenv/bin/python", "-c", code]))
